package main

// Profile "rns": histories over all name-service messages by 4 accounts on a small pool of names
// (with the aliasing spelling "abxjkl" = "ab.jkl", mixed case, spaces, too-short strings), names
// close to expiry seeded through the genesis NamesList, repeated bids in two denominations, and
// crafted coin values.  One step record per message: abstract pre-state, op, ok/failed, post-state.

import (
	"encoding/json"
	"fmt"
	"math/rand"
	"sort"
	"strings"
	"time"

	sdk "github.com/cosmos/cosmos-sdk/types"
	"github.com/jackalLabs/canine-chain/v4/app"
	alltypes "github.com/jackalLabs/canine-chain/v4/types"
	rnstypes "github.com/jackalLabs/canine-chain/v4/x/rns/types"
)

type rnsSub struct {
	Name    string `json:"name"`
	Value   string `json:"value"`
	Data    string `json:"data"`
	Tld     string `json:"tld"`
	Expires int64  `json:"expires"`
}
type rnsName struct {
	Name    string   `json:"name"`
	Tld     string   `json:"tld"`
	Expires int64    `json:"expires"`
	Value   string   `json:"value"`
	Data    string   `json:"data"`
	Locked  int64    `json:"locked"`
	Subs    []rnsSub `json:"subs"`
}
type rnsListing struct {
	Name     string      `json:"name"`
	Owner    string      `json:"owner"`
	PriceRaw string      `json:"priceRaw"`
	Price    interface{} `json:"price"`
}
type rnsBid struct {
	Index    string      `json:"index"`
	Name     string      `json:"name"`
	Bidder   string      `json:"bidder"`
	PriceRaw string      `json:"priceRaw"`
	Price    interface{} `json:"price"`
}
type rnsState struct {
	Names     []Pair   `json:"names"`
	Forsale   []Pair   `json:"forsale"`
	Bids      []Pair   `json:"bids"`
	Inits     []Pair   `json:"inits"`
	Primary   []Pair   `json:"primary"`
	Bank      []Pair   `json:"bank"`
	Blocked   []string `json:"blocked"`
	ModuleAcc string   `json:"moduleAcc"`
	PolAcc    string   `json:"polAcc"`
	Canon     []Pair   `json:"canon"`
}

// parseCoin / parseCoins: the chain's own parsers, as oracle inputs for the model.
func parseCoinJ(s string) interface{} {
	c, err := sdk.ParseCoinNormalized(s)
	if err != nil {
		return nil
	}
	return []interface{}{c.Denom, Num(c.Amount)}
}

func parseCoinsJ(s string) interface{} {
	cs, err := sdk.ParseCoinsNormalized(s)
	if err != nil {
		return nil
	}
	out := []interface{}{}
	for _, c := range cs {
		out = append(out, []interface{}{c.Denom, Num(c.Amount)})
	}
	return out
}

func trimKey(k []byte) string { return strings.TrimSuffix(string(k), "/") }

func (c *Chain) rnsAbs(tracked []string) rnsState {
	cdc := c.A.AppCodec()
	st := rnsState{Names: []Pair{}, Forsale: []Pair{}, Bids: []Pair{}, Inits: []Pair{}, Primary: []Pair{}}
	for _, kv := range c.RawStore(rnstypes.StoreKey, rnstypes.NamesKeyPrefix) {
		var n rnstypes.Names
		cdc.MustUnmarshal(kv[1], &n)
		subs := []rnsSub{}
		for _, s := range n.Subdomains {
			subs = append(subs, rnsSub{s.Name, s.Value, s.Data, s.Tld, s.Expires})
		}
		st.Names = append(st.Names, Pair{trimKey(kv[0]), rnsName{n.Name, n.Tld, n.Expires, n.Value, n.Data, n.Locked, subs}})
	}
	for _, kv := range c.RawStore(rnstypes.StoreKey, rnstypes.ForsaleKeyPrefix) {
		var f rnstypes.Forsale
		cdc.MustUnmarshal(kv[1], &f)
		st.Forsale = append(st.Forsale, Pair{trimKey(kv[0]), rnsListing{f.Name, f.Owner, f.Price, parseCoinJ(f.Price)}})
	}
	for _, kv := range c.RawStore(rnstypes.StoreKey, rnstypes.BidsKeyPrefix) {
		var b rnstypes.Bids
		cdc.MustUnmarshal(kv[1], &b)
		st.Bids = append(st.Bids, Pair{trimKey(kv[0]), rnsBid{b.Index, b.Name, b.Bidder, b.Price, parseCoinsJ(b.Price)}})
	}
	for _, kv := range c.RawStore(rnstypes.StoreKey, rnstypes.InitKeyPrefix) {
		var i rnstypes.Init
		cdc.MustUnmarshal(kv[1], &i)
		st.Inits = append(st.Inits, Pair{trimKey(kv[0]), i.Complete})
	}
	for _, kv := range c.RawStore(rnstypes.StoreKey, rnstypes.PrimaryNameKeyPrefix) {
		st.Primary = append(st.Primary, Pair{trimKey(kv[0]), string(kv[1])})
	}
	st.Bank = c.BankAbs(tracked)
	st.Blocked = c.BlockedAddrs()
	st.ModuleAcc = c.ModuleAddr(rnstypes.ModuleName)
	pol, _ := alltypes.GetPOLAccount()
	st.PolAcc = pol.String()
	// every address-like string in play, with the chain's own canonicalisation
	cands := map[string]bool{st.ModuleAcc: true, st.PolAcc: true}
	for _, t := range tracked {
		cands[t] = true
		cands[strings.ToUpper(t)] = true
	}
	for _, p := range st.Names {
		cands[p[1].(rnsName).Value] = true
	}
	for _, p := range st.Forsale {
		cands[p[1].(rnsListing).Owner] = true
	}
	for _, p := range st.Bids {
		cands[p[1].(rnsBid).Bidder] = true
	}
	for _, x := range extraAddrs {
		cands[x] = true
	}
	keys := []string{}
	for k := range cands {
		keys = append(keys, k)
	}
	sort.Strings(keys)
	st.Canon = []Pair{}
	for _, k := range keys {
		if a, err := sdk.AccAddressFromBech32(k); err == nil {
			st.Canon = append(st.Canon, Pair{k, a.String()})
		}
	}
	return st
}

// address strings of the op under construction (receivers, bidders) to be canonicalised too
var extraAddrs []string

var rnsNamePool = []string{
	"ab.jkl", "abxjkl", "hello.jkl", "Hello.JKL", "q.ibc", "longname.ibc", "sub.hello.jkl", "a b.jkl",
	"jkl", "x.jkl", "abcd.jkl", "abc.ibc", "hello.xyz", "foo.hello.jkl", "zz-top.jkl",
	// labels that contain the other TLD, or their own
	"ibcfan.jkl", "myibc.jkl", "jklfan.ibc", "jkl.ibc", "ibc.jkl", "xjkl.jkl",
	// labels that end in letters of their own TLD, next to the label without them (a suffix is not a set of characters)
	"carl.jkl", "car.jkl", "paul.jkl", "pau.jkl", "a.ibc",
}

func lowerName(s string) string { return strings.ToLower(s) }
func regName(s string) string   { return strings.ReplaceAll(strings.ToLower(s), " ", "") }

func randCoin(r *rand.Rand) sdk.Coin {
	denoms := []string{"ujkl", "ujkl", "ujkl", "utest", "Bad Denom", "x"}
	amts := []int64{0, 1, 5, 777, 1000, 123456, -5, 2e15, 60_000_000, 2_000_000_000, 700_000_000}
	w := r.Intn(10)
	var amt int64
	if w < 7 {
		amt = int64(1 + r.Intn(5000))
	} else {
		amt = amts[r.Intn(len(amts))]
	}
	d := denoms[r.Intn(len(denoms))]
	if w < 8 {
		d = denoms[r.Intn(4)]
	}
	return sdk.Coin{Denom: d, Amount: sdk.NewInt(amt)}
}

type rnsGen struct {
	c       *Chain
	r       *rand.Rand
	tracked []string
	actors  []string
}

// pick an owner-biased actor for name nm
func (g *rnsGen) actorFor(lname string) string {
	n, tld, err := rnstypes.GetNameAndTLD(lname)
	if err == nil && g.r.Intn(100) < 65 {
		if w, found := g.c.A.RnsKeeper.GetNames(g.c.Ctx(), n, tld); found {
			for _, a := range g.actors {
				if a == w.Value {
					return a
				}
			}
		}
	}
	return g.actors[g.r.Intn(len(g.actors))]
}

// spell: sometimes the all-upper-case bech32 spelling of the same account
func (g *rnsGen) spell(a string) string {
	if g.r.Intn(9) == 0 {
		return strings.ToUpper(a)
	}
	return a
}

func (g *rnsGen) pickName() string {
	// a name whose last live block is this one (height == Expires): the boundary every handler must agree on
	if g.r.Intn(100) < 12 {
		for _, n := range g.c.A.RnsKeeper.GetAllNames(g.c.Ctx()) {
			if n.Expires == g.c.H || n.Expires == g.c.H+1 {
				return n.Name + "." + n.Tld
			}
		}
	}
	// a record addressed as a name of its own, `record.name.tld` (the Name query resolves these; no message may)
	if g.r.Intn(100) < 9 {
		var withSubs []rnstypes.Names
		for _, n := range g.c.A.RnsKeeper.GetAllNames(g.c.Ctx()) {
			if len(n.Subdomains) > 0 {
				withSubs = append(withSubs, n)
			}
		}
		if len(withSubs) > 0 {
			n := withSubs[g.r.Intn(len(withSubs))]
			return n.Subdomains[g.r.Intn(len(n.Subdomains))].Name + "." + n.Name + "." + n.Tld
		}
	}
	// bias towards names that exist
	if g.r.Intn(100) < 50 {
		names := g.c.A.RnsKeeper.GetAllNames(g.c.Ctx())
		if len(names) > 0 {
			n := names[g.r.Intn(len(names))]
			s := n.Name + "." + n.Tld
			if g.r.Intn(8) == 0 {
				s = n.Name + "x" + n.Tld // aliasing spelling
			}
			if g.r.Intn(10) == 0 {
				s = strings.ToUpper(s)
			} else if g.r.Intn(6) == 0 && len(s) > 4 { // capitals in the name part only: passes ValidateBasic
				s = strings.ToUpper(s[:1]) + s[1:]
			}
			return s
		}
	}
	if g.r.Intn(7) == 0 {
		// the free name `Init` will hand out at one of the next heights (it depends on the height only):
		// registering it first makes the hand-out collide with a paid, live name
		h := g.c.H + int64(g.r.Intn(6))
		return rnstypes.MakeName(int(h), h) + ".jkl"
	}
	return rnsNamePool[g.r.Intn(len(rnsNamePool))]
}

// next returns the sdk.Msg and its model op.
func (g *rnsGen) next() (sdk.Msg, map[string]interface{}) {
	r := g.r
	nm := g.pickName()
	ln := lowerName(nm)
	switch k := r.Intn(100); {
	case k < 16:
		creator := g.actors[r.Intn(len(g.actors))]
		if r.Intn(3) == 0 {
			creator = g.actorFor(regName(nm))
		}
		years := int64(1 + r.Intn(3))
		if r.Intn(8) == 0 {
			years = []int64{0, -1, 1000000, 1000001, 3689348814742, 5}[r.Intn(6)]
		}
		data := fmt.Sprintf(`{"d":%d}`, r.Intn(100))
		op := map[string]interface{}{"register": map[string]interface{}{"creator": creator, "rawName": nm, "lname": regName(nm), "data": data, "years": years, "setPrimary": false}}
		if r.Intn(2) == 0 {
			sp := r.Intn(2) == 0
			op["register"].(map[string]interface{})["setPrimary"] = sp
			return &rnstypes.MsgRegisterName{Creator: creator, Name: nm, Years: years, Data: data, SetPrimary: sp}, op
		}
		return &rnstypes.MsgRegister{Creator: creator, Name: nm, Years: years, Data: data}, op
	case k < 26:
		creator := g.actorFor(ln)
		price := randCoin(r)
		return &rnstypes.MsgList{Creator: creator, Name: nm, Price: price},
			map[string]interface{}{"list": map[string]interface{}{"creator": creator, "rawName": nm, "lname": ln, "priceRaw": price.String(), "price": parseCoinJ(price.String())}}
	case k < 32:
		creator := g.actorFor(ln)
		if sales := g.c.A.RnsKeeper.GetAllForsale(g.c.Ctx()); len(sales) > 0 && r.Intn(2) == 0 {
			nm = sales[r.Intn(len(sales))].Name // mostly: a name that is on the market …
			if r.Intn(3) == 0 && len(nm) > 4 {
				nm = strings.ToUpper(nm[:1]) + nm[1:] // … sometimes typed with a capital (valid: only the TLD must be lower case)
			}
			ln = lowerName(nm)
		}
		if sale, ok := g.c.A.RnsKeeper.GetForsale(g.c.Ctx(), ln); ok && r.Intn(4) > 0 {
			creator = sale.Owner
		}
		return &rnstypes.MsgDelist{Creator: creator, Name: nm},
			map[string]interface{}{"delist": map[string]interface{}{"creator": creator, "rawName": nm, "lname": ln}}
	case k < 44:
		// buy: prefer listed names
		if sales := g.c.A.RnsKeeper.GetAllForsale(g.c.Ctx()); len(sales) > 0 && r.Intn(4) > 0 {
			nm = sales[r.Intn(len(sales))].Name
			ln = lowerName(nm)
		}
		creator := g.actors[r.Intn(len(g.actors))]
		return &rnstypes.MsgBuy{Creator: creator, Name: nm},
			map[string]interface{}{"buy": map[string]interface{}{"creator": creator, "rawName": nm, "lname": ln}}
	case k < 58:
		creator := g.actors[r.Intn(len(g.actors))]
		price := randCoin(r)
		if bids := g.c.A.RnsKeeper.GetAllBids(g.c.Ctx()); len(bids) > 0 && r.Intn(4) == 0 {
			// the same account bids again on the same name — half the time with the very same amount
			b := bids[r.Intn(len(bids))]
			creator, nm, ln = b.Bidder, b.Name, lowerName(b.Name)
			if pc, err := sdk.ParseCoinNormalized(b.Price); err == nil && r.Intn(2) == 0 {
				price = pc
			} else if r.Intn(4) == 0 {
				price = sdk.Coin{Denom: "ujkl", Amount: sdk.ZeroInt()} // replaced by an empty bid
			}
		}
		return &rnstypes.MsgBid{Creator: creator, Name: nm, Bid: price},
			map[string]interface{}{"bid": map[string]interface{}{"creator": creator, "rawName": nm, "lname": ln, "priceRaw": price.String(), "price": parseCoinsJ(price.String())}}
	case k < 66:
		creator := g.actors[r.Intn(len(g.actors))]
		if bids := g.c.A.RnsKeeper.GetAllBids(g.c.Ctx()); len(bids) > 0 && r.Intn(4) > 0 {
			b := bids[r.Intn(len(bids))]
			nm, ln = b.Name, lowerName(b.Name)
			if r.Intn(4) > 0 {
				creator = b.Bidder
			}
		}
		return &rnstypes.MsgCancelBid{Creator: creator, Name: nm},
			map[string]interface{}{"cancelBid": map[string]interface{}{"creator": creator, "rawName": nm, "lname": ln}}
	case k < 76:
		from := g.actors[r.Intn(len(g.actors))]
		if bids := g.c.A.RnsKeeper.GetAllBids(g.c.Ctx()); len(bids) > 0 && r.Intn(4) > 0 {
			b := bids[r.Intn(len(bids))]
			nm, ln, from = b.Name, lowerName(b.Name), b.Bidder
		}
		creator := g.actorFor(ln)
		return &rnstypes.MsgAcceptBid{Creator: creator, Name: nm, From: from},
			map[string]interface{}{"acceptBid": map[string]interface{}{"creator": creator, "rawName": nm, "lname": ln, "bidder": from}}
	case k < 84:
		creator := g.actorFor(ln)
		recv := g.actors[r.Intn(len(g.actors))]
		if r.Intn(12) == 0 {
			recv = g.c.ModuleAddr(rnstypes.ModuleName) // a blocked recipient as owner
		}
		return &rnstypes.MsgTransfer{Creator: creator, Name: nm, Receiver: recv},
			map[string]interface{}{"transfer": map[string]interface{}{"creator": creator, "rawName": nm, "lname": ln, "receiver": recv}}
	case k < 89:
		creator := g.actorFor(ln)
		data := fmt.Sprintf(`{"u":%d}`, r.Intn(100))
		return &rnstypes.MsgUpdate{Creator: creator, Name: nm, Data: data},
			map[string]interface{}{"update": map[string]interface{}{"creator": creator, "rawName": nm, "lname": ln, "data": data}}
	case k < 93:
		creator := g.actorFor(ln)
		rec := []string{"sub", "Foo", "www", "a.b"}[r.Intn(4)]
		val := []string{creator, "1.2.3.4", "plain"}[r.Intn(3)]
		if r.Intn(3) == 0 {
			// a record labelled like somebody's registered name, pointing at the record's creator
			if all := g.c.A.RnsKeeper.GetAllNames(g.c.Ctx()); len(all) > 0 {
				rec = all[r.Intn(len(all))].Name
				val = creator
			}
		}
		data := "{}"
		return &rnstypes.MsgAddRecord{Creator: creator, Name: nm, Record: rec, Value: val, Data: data},
			map[string]interface{}{"addRecord": map[string]interface{}{"creator": creator, "rawName": nm, "lname": ln, "record": rec, "recordLower": strings.ToLower(rec), "value": val, "data": data}}
	case k < 96:
		// del record: "sub.name.tld"
		sub := []string{"sub", "foo", "www", "Foo"}[r.Intn(4)]
		if r.Intn(4) > 0 { // mostly: a record that exists, on the name that carries it
			var withSubs []rnstypes.Names
			for _, n := range g.c.A.RnsKeeper.GetAllNames(g.c.Ctx()) {
				if len(n.Subdomains) > 0 {
					withSubs = append(withSubs, n)
				}
			}
			if len(withSubs) > 0 {
				n := withSubs[r.Intn(len(withSubs))]
				sub = n.Subdomains[r.Intn(len(n.Subdomains))].Name
				nm = n.Name + "." + n.Tld
				ln = lowerName(nm)
			}
		}
		full := sub + "." + nm
		creator := g.actorFor(ln)
		return &rnstypes.MsgDelRecord{Creator: creator, Name: full},
			map[string]interface{}{"delRecord": map[string]interface{}{"creator": creator, "rawName": full, "lname": lowerName(full)}}
	case k < 98:
		creator := g.actors[r.Intn(len(g.actors))]
		gen := rnstypes.MakeName(int(g.c.H), g.c.H)
		return &rnstypes.MsgInit{Creator: creator},
			map[string]interface{}{"init": map[string]interface{}{"creator": creator, "genName": gen}}
	default:
		creator := g.actors[r.Intn(len(g.actors))]
		return &rnstypes.MsgMakePrimary{Creator: creator, Name: nm},
			map[string]interface{}{"makePrimary": map[string]interface{}{"creator": creator, "rawName": nm, "lname": ln}}
	}
}

func opKind(op map[string]interface{}) string {
	for k := range op {
		return k
	}
	return "?"
}

// runRns produces `histories` histories of `steps` messages each.
func runRns(seed int64, histories, steps int, out *Emitter) {
	for hi := 0; hi < histories; hi++ {
		r := rand.New(rand.NewSource(seed*1000003 + int64(hi)))
		mut := func(a *app.JackalApp, gs app.GenesisState, users []sdk.AccAddress) {
			g := rnstypes.DefaultGenesis()
			// names that expire a few blocks into the history (reached by the chain's own entry point)
			g.NamesList = []rnstypes.Names{
				{Name: "hello", Tld: "jkl", Expires: int64(4 + r.Intn(8)), Value: users[0].String(), Data: "{}", Subdomains: []*rnstypes.Names{}},
				{Name: "ab", Tld: "jkl", Expires: int64(10 + r.Intn(20)), Value: users[1].String(), Data: "{}", Subdomains: []*rnstypes.Names{}},
				{Name: "q", Tld: "ibc", Expires: int64(25 + r.Intn(10)), Value: users[2].String(), Data: "{}", Subdomains: []*rnstypes.Names{}, Locked: int64(8 + r.Intn(10))},
			}
			if hi%3 == 2 {
				// a grown name service: more names (and a few open listings) than one listing page holds
				for n := 0; n < 108; n++ {
					g.NamesList = append(g.NamesList, rnstypes.Names{Name: fmt.Sprintf("seeded%03d", n), Tld: "jkl", Expires: int64(5_000_000 + n), Value: users[n%4].String(), Data: "{}", Subdomains: []*rnstypes.Names{}})
				}
				for n := 0; n < 3; n++ {
					g.ForSaleList = append(g.ForSaleList, rnstypes.Forsale{Name: fmt.Sprintf("seeded%03d.jkl", n), Price: "1000ujkl", Owner: users[n%4].String()})
				}
			}
			gs[rnstypes.ModuleName] = a.AppCodec().MustMarshalJSON(g)
		}
		c := NewChain(4, []string{"ujkl", "utest"}, mut)
		g := &rnsGen{c: c, r: r}
		poorLeft := []int64{0, 4_000_000, 9_999_999, 10_000_000, 35_000_000, 150_000_000}[r.Intn(6)]
		for _, u := range c.Users {
			g.actors = append(g.actors, u.String())
		}
		pol, _ := alltypes.GetPOLAccount()
		g.tracked = append(append([]string{}, g.actors...), c.ModuleAddr(rnstypes.ModuleName), pol.String())
		sort.Strings(g.tracked)
		c.Begin(6 * time.Second)
		// the last actor is poor: it cannot afford most names (what it gives away goes to the first;
		// every step record carries its own pre-state, so this needs no record of its own)
		if have := c.A.BankKeeper.GetBalance(c.Ctx(), c.Users[3], "ujkl").Amount; have.GT(sdk.NewInt(poorLeft)) {
			if err := c.A.BankKeeper.SendCoins(c.Ctx(), c.Users[3], c.Users[0], sdk.NewCoins(sdk.NewCoin("ujkl", have.SubRaw(poorLeft)))); err != nil {
				panic(err)
			}
		}
		qr := rand.New(rand.NewSource(seed*7919 + int64(hi) + 29))
		var pgr *pager
		for i := 0; i < steps; i++ {
			if restartsOn && qr.Intn(150) == 0 {
				// the network restarts from its own exported genesis (and runs its first block)
				pre := c.rnsAbs(g.tracked)
				e, p := c.Restart(6 * time.Second)
				if e != "" || p != nil {
					out.Emit(map[string]interface{}{"mod": "panic", "where": "restart", "hist": hi, "i": i, "h": c.H, "panic": fmt.Sprint(e, p)})
					break
				}
				post := c.rnsAbs(g.tracked)
				out.Emit(map[string]interface{}{"mod": "rns", "hist": hi, "i": i, "h": c.H, "pre": pre, "op": "restart", "ok": true, "post": post, "genesis": c.rnsGenesisJ()})
				out.Count("rns.restart", true)
			}
			if r.Intn(6) == 0 {
				if p := c.NextBlock(6 * time.Second); p != nil {
					out.Emit(map[string]interface{}{"mod": "panic", "where": "block", "h": c.H, "panic": fmt.Sprint(p)})
					break
				}
			}
			if queriesOn && qr.Intn(4) == 0 { // a query record: the query server answers on the current state
				if pgr == nil {
					pgr = newPager(qr)
				}
				extraAddrs = nil
				q, resp, kind := rnsQueryStep(c, qr, pgr, g.actors)
				qst := c.rnsAbs(g.tracked) // after the question: the address strings it names are canonicalised too
				out.Emit(map[string]interface{}{"mod": "query", "sub": "rns", "hist": hi, "i": i, "h": c.H, "state": qst, "q": q, "resp": resp})
				out.Count("query.rns."+kind, resp != "err")
			}
			msg, op := g.next()
			respell(g, msg, op)
			pre := c.rnsAbs(g.tracked)
			res := c.Deliver(msg)
			post := c.rnsAbs(g.tracked)
			rec := map[string]interface{}{"mod": "rns", "hist": hi, "i": i, "h": c.H, "pre": pre, "op": op, "ok": res.OK, "err": res.Err, "post": post}
			if rg, isReg := op["register"].(map[string]interface{}); isReg && res.OK {
				// "afterwards the name resolves to the registrant": what the Name query answers for the name as it was sent
				var to interface{}
				if qr, err := c.A.RnsKeeper.Name(sdk.WrapSDKContext(c.Ctx()), &rnstypes.QueryName{Name: fmt.Sprint(rg["rawName"])}); err == nil {
					to = qr.Name.Value
				}
				rec["resolvesTo"] = to
			}
			out.Emit(rec)
			out.Count("rns."+opKind(op), res.OK)
		}
		if withGenesis {
			genesisRoundTrip(c, hi, "rns", out)
		}
		c.Close()
	}
}

// respell rewrites the signer (and for AcceptBid the bidder) of a generated message to another
// valid spelling of the same account, in the message and in the op record alike
func respell(g *rnsGen, msg sdk.Msg, op map[string]interface{}) {
	extraAddrs = nil
	for _, v := range op {
		m := v.(map[string]interface{})
		c := m["creator"].(string)
		nc := g.spell(c)
		m["creator"] = nc
		switch x := msg.(type) {
		case *rnstypes.MsgRegister:
			x.Creator = nc
		case *rnstypes.MsgRegisterName:
			x.Creator = nc
		case *rnstypes.MsgList:
			x.Creator = nc
		case *rnstypes.MsgDelist:
			x.Creator = nc
		case *rnstypes.MsgBuy:
			x.Creator = nc
		case *rnstypes.MsgBid:
			x.Creator = nc
		case *rnstypes.MsgCancelBid:
			x.Creator = nc
		case *rnstypes.MsgAcceptBid:
			x.Creator = nc
			nb := g.spell(x.From)
			x.From = nb
			m["bidder"] = nb
			extraAddrs = append(extraAddrs, nb)
		case *rnstypes.MsgTransfer:
			x.Creator = nc
			nr := g.spell(x.Receiver)
			x.Receiver = nr
			m["receiver"] = nr
			extraAddrs = append(extraAddrs, nr)
		case *rnstypes.MsgUpdate:
			x.Creator = nc
		case *rnstypes.MsgAddRecord:
			x.Creator = nc
		case *rnstypes.MsgDelRecord:
			x.Creator = nc
		case *rnstypes.MsgInit:
			x.Creator = nc
		case *rnstypes.MsgMakePrimary:
			x.Creator = nc
		}
		extraAddrs = append(extraAddrs, nc)
	}
}

// rnsGenesisJ decodes the rns part of the last exported application state, list by list in the exported order
// (what the Lean model's `Genesis.Rns.exportGenesis` must compute from the state before the restart).
func (c *Chain) rnsGenesisJ() interface{} {
	var app map[string]json.RawMessage
	if json.Unmarshal(c.LastExport, &app) != nil {
		return nil
	}
	var gs rnstypes.GenesisState
	if err := c.A.AppCodec().UnmarshalJSON(app[rnstypes.ModuleName], &gs); err != nil {
		return map[string]interface{}{"error": err.Error()}
	}
	whois, names, bids, sale, inits, prim := []interface{}{}, []interface{}{}, []interface{}{}, []interface{}{}, []interface{}{}, []interface{}{}
	for _, w := range gs.WhoIsList {
		whois = append(whois, map[string]interface{}{"index": w.Index, "name": w.Name, "value": w.Value, "data": w.Data})
	}
	for _, n := range gs.NamesList {
		subs := []rnsSub{}
		for _, s := range n.Subdomains {
			subs = append(subs, rnsSub{s.Name, s.Value, s.Data, s.Tld, s.Expires})
		}
		names = append(names, rnsName{n.Name, n.Tld, n.Expires, n.Value, n.Data, n.Locked, subs})
	}
	for _, b := range gs.BidsList {
		bids = append(bids, rnsBid{b.Index, b.Name, b.Bidder, b.Price, parseCoinsJ(b.Price)})
	}
	for _, f := range gs.ForSaleList {
		sale = append(sale, rnsListing{f.Name, f.Owner, f.Price, parseCoinJ(f.Price)})
	}
	for _, i := range gs.InitList {
		inits = append(inits, map[string]interface{}{"address": i.Address, "complete": i.Complete})
	}
	for _, p := range gs.PrimaryNameList {
		prim = append(prim, map[string]interface{}{"owner": p.Owner, "name": p.Name})
	}
	return map[string]interface{}{"whoIsList": whois, "namesList": names, "bidsList": bids, "forSaleList": sale, "initList": inits, "primaryNameList": prim, "validateOk": gs.Validate() == nil}
}
