// verifscan lists the syntactic sources of nondeterminism in the consensus packages of /repo:
// every `range` over a map-typed expression, every use of wall-clock time or of a random number
// generator, every `go` statement and every `select`.  Sites are identified by file, enclosing
// function and kind (not by line), so that unrelated edits do not move them.
package main

import (
	"encoding/json"
	"fmt"
	"go/ast"
	"go/types"
	"os"
	"sort"
	"strings"

	"golang.org/x/tools/go/packages"
)

type Site struct {
	File string `json:"file"`
	Func string `json:"func"`
	Kind string `json:"kind"`
	Expr string `json:"expr"`
}

func skipFile(name string) bool {
	return strings.HasSuffix(name, "_test.go") || strings.HasSuffix(name, ".pb.go") || strings.HasSuffix(name, ".pb.gw.go") ||
		strings.Contains(name, "/client/") || strings.Contains(name, "/simulation/") || strings.Contains(name, "/testutil/") ||
		strings.Contains(name, "module_simulation.go") || strings.Contains(name, "/legacy/")
}

func main() {
	dir := "/repo"
	if len(os.Args) > 1 {
		dir = os.Args[1]
	}
	cfg := &packages.Config{Mode: packages.NeedName | packages.NeedFiles | packages.NeedSyntax | packages.NeedTypes | packages.NeedTypesInfo | packages.NeedImports, Dir: dir,
		Env: append(os.Environ(), "GOFLAGS=-mod=mod", "GOPROXY=off", "GOSUMDB=off", "GOTOOLCHAIN=local")}
	pkgs, err := packages.Load(cfg, "./x/...", "./wasmbinding/...", "./types/...")
	if err != nil {
		fmt.Fprintln(os.Stderr, err)
		os.Exit(2)
	}
	var sites []Site
	nerr := 0
	for _, p := range pkgs {
		for _, e := range p.Errors {
			nerr++
			fmt.Fprintln(os.Stderr, "load error:", e)
		}
		for _, f := range p.Syntax {
			name := p.Fset.Position(f.Pos()).Filename
			rel := strings.TrimPrefix(name, dir+"/")
			if skipFile(name) {
				continue
			}
			var stack []string
			var curFn *ast.FuncDecl
			ast.Inspect(f, func(n ast.Node) bool {
				switch x := n.(type) {
				case *ast.FuncDecl:
					fn := x.Name.Name
					if x.Recv != nil && len(x.Recv.List) > 0 {
						fn = types.ExprString(x.Recv.List[0].Type) + "." + fn
					}
					stack = []string{fn}
					curFn = x
				case *ast.RangeStmt:
					if t := p.TypesInfo.TypeOf(x.X); t != nil {
						if _, ok := t.Underlying().(*types.Map); ok {
							// what, if anything, puts the collected keys into a node-independent order
							// afterwards: the sort calls of the enclosing function, by name
							var sorts []string
							if curFn != nil && curFn.Body != nil {
								ast.Inspect(curFn.Body, func(m ast.Node) bool {
									if c, ok := m.(*ast.CallExpr); ok {
										if sel, ok := c.Fun.(*ast.SelectorExpr); ok {
											if id, ok := sel.X.(*ast.Ident); ok {
												if pn, ok := p.TypesInfo.Uses[id].(*types.PkgName); ok {
													if ip := pn.Imported().Path(); ip == "sort" || ip == "slices" || strings.HasSuffix(ip, "/slices") {
														sorts = append(sorts, ip+"."+sel.Sel.Name)
													}
												}
											}
										}
									}
									return true
								})
							}
							expr := types.ExprString(x.X)
							if len(sorts) > 0 {
								expr += " ; ordered by " + strings.Join(sorts, ", ")
							} else {
								expr += " ; unordered"
							}
							sites = append(sites, Site{rel, cur(stack), "range-map", expr})
						}
					}
				case *ast.SelectorExpr:
					if id, ok := x.X.(*ast.Ident); ok {
						if pn, ok := p.TypesInfo.Uses[id].(*types.PkgName); ok && pn.Imported().Path() == "time" && x.Sel.Name == "Local" {
							sites = append(sites, Site{rel, cur(stack), "hostzone", "time.Local"})
						}
					}
					if x.Sel.Name == "Local" {
						if tv, ok := p.TypesInfo.Types[x.X]; ok && tv.Type != nil && tv.Type.String() == "time.Time" {
							sites = append(sites, Site{rel, cur(stack), "hostzone", "Time.Local"})
						}
					}
				case *ast.AssignStmt:
					// process-local state that outlives a transaction: a package-level variable written outside
					// init(), or a field of a keeper / message-server receiver written by one of its methods.  Such state
					// is not rolled back with a failed transaction and is empty again after a process restart.
					for _, l := range x.Lhs {
						if w := procStateWrite(p, l, curFn); w != "" && cur(stack) != "init" {
							sites = append(sites, Site{rel, cur(stack), "procstate", w})
						}
					}
				case *ast.IncDecStmt:
					if w := procStateWrite(p, x.X, curFn); w != "" && cur(stack) != "init" {
						sites = append(sites, Site{rel, cur(stack), "procstate", w})
					}
				case *ast.GoStmt:
					sites = append(sites, Site{rel, cur(stack), "go", ""})
				case *ast.SelectStmt:
					sites = append(sites, Site{rel, cur(stack), "select", ""})
				case *ast.CallExpr:
					if sel, ok := x.Fun.(*ast.SelectorExpr); ok && cur(stack) != "init" {
						// a mutating method of a sync.* value (sync.Map.Store, Mutex.Lock, Once.Do …) that lives in a
						// package-level variable or in a keeper field
						if tv, ok := p.TypesInfo.Types[sel.X]; ok && tv.Type != nil {
							ts := tv.Type.String()
							if strings.HasPrefix(strings.TrimPrefix(ts, "*"), "sync.") {
								if w := procStateWrite(p, sel.X, curFn); w != "" {
									sites = append(sites, Site{rel, cur(stack), "procstate", w + "." + sel.Sel.Name})
								}
							}
						}
					}
					if sel, ok := x.Fun.(*ast.SelectorExpr); ok {
						if id, ok := sel.X.(*ast.Ident); ok {
							if pn, ok := p.TypesInfo.Uses[id].(*types.PkgName); ok {
								path := pn.Imported().Path()
								if path == "time" && (sel.Sel.Name == "Now" || sel.Sel.Name == "Since" || sel.Sel.Name == "Until" || sel.Sel.Name == "After" || sel.Sel.Name == "Tick" || sel.Sel.Name == "NewTimer" || sel.Sel.Name == "Sleep") {
									sites = append(sites, Site{rel, cur(stack), "wallclock", "time." + sel.Sel.Name})
								}
								// times in the host's zone: calendar arithmetic on them (AddDate, Date, Truncate to days,
								// formatting) depends on the node's TZ setting and its tzdata
								if path == "time" && (sel.Sel.Name == "Unix" || sel.Sel.Name == "UnixMilli" || sel.Sel.Name == "UnixMicro" || sel.Sel.Name == "LoadLocation" || sel.Sel.Name == "ParseInLocation" || sel.Sel.Name == "Parse") {
									sites = append(sites, Site{rel, cur(stack), "hostzone", "time." + sel.Sel.Name})
								}
								if path == "os" && (sel.Sel.Name == "Getenv" || sel.Sel.Name == "LookupEnv" || sel.Sel.Name == "Hostname" || sel.Sel.Name == "Getpid" || sel.Sel.Name == "Environ") {
									sites = append(sites, Site{rel, cur(stack), "hostenv", "os." + sel.Sel.Name})
								}
								if path == "sync/atomic" && cur(stack) != "init" {
									sites = append(sites, Site{rel, cur(stack), "procstate", "sync/atomic." + sel.Sel.Name})
								}
								if path == "math/rand" || path == "crypto/rand" || strings.HasSuffix(path, "libs/rand") {
									sites = append(sites, Site{rel, cur(stack), "rand", path + "." + sel.Sel.Name})
								}
							}
						}
					}
				}
				return true
			})
		}
	}
	if nerr > 0 {
		os.Exit(2)
	}
	sort.Slice(sites, func(i, j int) bool {
		a, b := sites[i], sites[j]
		return a.File+a.Func+a.Kind+a.Expr < b.File+b.Func+b.Kind+b.Expr
	})
	// collapse duplicates (same file, func, kind, expr)
	out := []Site{}
	for i, s := range sites {
		if i == 0 || s != sites[i-1] {
			out = append(out, s)
		}
	}
	b, _ := json.MarshalIndent(out, "", " ")
	fmt.Println(string(b))
}

func cur(stack []string) string {
	if len(stack) == 0 {
		return ""
	}
	return stack[0]
}

// procStateWrite: does the expression denote (part of) a package-level variable, or a field reached through the
// receiver of a Keeper / msgServer method?  Returns a stable description, "" otherwise.
func procStateWrite(p *packages.Package, e ast.Expr, fn *ast.FuncDecl) string {
	root := e
	viaField := false
	for {
		switch x := root.(type) {
		case *ast.IndexExpr:
			root = x.X
			continue
		case *ast.SelectorExpr:
			if id, ok := x.X.(*ast.Ident); ok {
				if _, isPkg := p.TypesInfo.Uses[id].(*types.PkgName); isPkg {
					// pkg.Var: a package-level variable of another package
					if v, ok := p.TypesInfo.Uses[x.Sel].(*types.Var); ok && v.Pkg() != nil && v.Parent() == v.Pkg().Scope() {
						return "package variable " + v.Pkg().Name() + "." + v.Name()
					}
					return ""
				}
			}
			viaField = true
			root = x.X
			continue
		case *ast.StarExpr:
			root = x.X
			continue
		case *ast.ParenExpr:
			root = x.X
			continue
		}
		break
	}
	id, ok := root.(*ast.Ident)
	if !ok {
		return ""
	}
	obj := p.TypesInfo.Uses[id]
	if obj == nil {
		obj = p.TypesInfo.Defs[id]
	}
	v, ok := obj.(*types.Var)
	if !ok || v.Pkg() == nil {
		return ""
	}
	if v.Parent() == v.Pkg().Scope() {
		return "package variable " + v.Name()
	}
	if viaField && fn != nil && fn.Recv != nil && len(fn.Recv.List) == 1 && len(fn.Recv.List[0].Names) == 1 && fn.Recv.List[0].Names[0].Name == id.Name {
		rt := types.ExprString(fn.Recv.List[0].Type)
		if strings.Contains(rt, "Keeper") || strings.Contains(rt, "msgServer") || strings.Contains(rt, "queryServer") {
			return "field of receiver " + rt + ": " + types.ExprString(e)
		}
	}
	return ""
}
